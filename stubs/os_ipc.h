/* OS stubs for the IPC units (assumed contracts, DESIGN.md 5.3).  Every result is drawn with VERIF_ND so
 * the native replay can script it.  Include after the system headers and before the spliced source.
 *
 * Socket model
 *   - recv(fd, buf, len, flags): precondition (ASSERTED): buf is writable for every byte the kernel may
 *     deliver, i.e. for min(len, bytes the peer queued).  Two delivery models, chosen by verif_dgram_mode:
 *       1 = datagram socket: the datagram at the head of the queue (first 16 bytes verif_dgram_hdr, real
 *           length verif_dgram_len, both chosen by the harness = "whatever the peer sent") is delivered
 *           truncated to len; MSG_PEEK leaves it queued; a consumed datagram is followed by an arbitrary one.
 *       0 = stream socket: any count in [0, len] (0 = orderly shutdown), arbitrary bytes.
 *     or fails with -1 and an arbitrary errno (EAGAIN at most verif_eagain_budget times in a row).
 *   - recvmsg(fd, msg, flags): one iovec; precondition (ASSERTED) iov_base writable for iov_len bytes; the
 *     control buffer writable for msg_controllen; result any count in [0, iov_len] or -1/errno.
 *   - send(fd, buf, len, flags): precondition (ASSERTED) buf readable for len; result any count in [1, len]
 *     (or 0 when len == 0) or -1/errno; ghost: calls, bytes accepted, last fd.
 *   - poll: any result in [-1, nfds], arbitrary revents.
 *   - close/shutdown/setsockopt/stat/rmdir/unlink/munmap/...: counted, arbitrary or fixed result. */
#ifndef VERIF_STUB_OS_IPC_H
#define VERIF_STUB_OS_IPC_H
#include "verif.h"
#include <sys/types.h>
#include <sys/socket.h>
#include <sys/stat.h>
#include <sys/mman.h>
#include <sys/uio.h>
#include <poll.h>
#include <errno.h>
#include <unistd.h>
#include <stdio.h>
#include <string.h>
#include <time.h>
#include <signal.h>
#include <qb/qbipc_common.h>

/* ---- ghost state (the harness initialises what it uses; dfcc makes globals nondet) ---- */
int verif_dgram_mode;                        /* 1: recv delivers datagrams, 0: stream bytes */
struct qb_ipc_request_header verif_dgram_hdr;   /* first 16 bytes of the datagram at the head of the queue */
size_t verif_dgram_len;                      /* its real length (what the peer actually sent) */
int verif_dgram_consumed;                    /* number of datagrams taken off the queue */
int verif_eagain_budget;                     /* how many more times a call may fail with EAGAIN (bounds retry loops) */
int verif_recv_calls, verif_recvmsg_calls, verif_send_calls, verif_poll_calls, verif_close_calls, verif_shutdown_calls;
size_t verif_recv_bytes;                     /* bytes delivered by non-PEEK recv calls */
size_t verif_send_bytes;                     /* bytes accepted by send() */
int verif_send_last_fd, verif_close_last_fd, verif_recv_last_fd;
size_t verif_recv_last_len;                  /* len argument of the last recv */
int verif_send_never_partial;
int verif_recvmsg_partial_budget;            /* >= 0: at most this many short (0 < n < iov_len) deliveries; -1: unlimited */
int verif_recvmsg_prefilled;                 /* harness switch: 1 = the harness already filled the receive area with arbitrary bytes
                                              * (same effect as the stub writing arbitrary bytes, cheaper than a symbolic havoc per call) */                /* harness switch: 1 = send accepts all or nothing */

static int verif_pick_errno(int nd)
{
	/* an errno value: 1..133 */
	return nd;
}

static ssize_t verif_recv(int fd, void *buf, size_t len, int flags)
{
	VERIF_ND(uint8_t, nd_recv_fails);
	VERIF_ND(int32_t, nd_recv_errno);
	VERIF_ND(size_t, nd_recv_count);
	size_t n;
	verif_recv_calls++;
	verif_recv_last_fd = fd;
	verif_recv_last_len = len;
	if (nd_recv_fails) {
		ASSUME(nd_recv_errno >= 1 && nd_recv_errno <= 133);
		if (nd_recv_errno == EAGAIN) {
			ASSUME(verif_eagain_budget > 0);
			verif_eagain_budget--;
		}
		errno = verif_pick_errno(nd_recv_errno);
		return -1;
	}
	if (verif_dgram_mode) {
		n = len < verif_dgram_len ? len : verif_dgram_len;
	} else {
		ASSUME(nd_recv_count <= len);
		n = nd_recv_count;
	}
	if (n > 0) {
#ifdef VERIF_CBMC
		__CPROVER_assert(__CPROVER_w_ok(buf, n), "recv: the buffer can hold every byte the peer's data may put into it (requested length <= buffer size)");
		__CPROVER_havoc_slice(buf, n);
#else
		memset(buf, 0xAB, n);
#endif
		if (verif_dgram_mode && n >= sizeof(struct qb_ipc_request_header)) {
			*(struct qb_ipc_request_header *)buf = verif_dgram_hdr;
		}
	}
	if (!(flags & MSG_PEEK)) {
		verif_recv_bytes += n;
		if (verif_dgram_mode) {
			/* the datagram is gone (even when truncated); the next one is arbitrary */
			VERIF_ND(int32_t, nd_next_id);
			VERIF_ND(int32_t, nd_next_size);
			VERIF_ND(size_t, nd_next_len);
			verif_dgram_consumed++;
			verif_dgram_hdr.id = nd_next_id;
			verif_dgram_hdr.size = nd_next_size;
			verif_dgram_len = nd_next_len;
		}
	}
	return (ssize_t)n;
}

static ssize_t verif_recvmsg(int fd, struct msghdr *msg, int flags)
{
	VERIF_ND(uint8_t, nd_recvmsg_fails);
	VERIF_ND(int32_t, nd_recvmsg_errno);
	VERIF_ND(size_t, nd_recvmsg_count);
	verif_recvmsg_calls++;
#ifdef VERIF_CBMC
	__CPROVER_assert(msg->msg_iovlen == 1, "recvmsg: exactly one iovec");
	__CPROVER_assert(msg->msg_iov[0].iov_len == 0 || __CPROVER_w_ok(msg->msg_iov[0].iov_base, msg->msg_iov[0].iov_len),
			 "recvmsg: the iovec lies inside a writable buffer for its whole length");
	__CPROVER_assert(msg->msg_controllen == 0 || __CPROVER_w_ok(msg->msg_control, msg->msg_controllen),
			 "recvmsg: the control buffer is writable for msg_controllen bytes");
#endif
	if (nd_recvmsg_fails) {
		ASSUME(nd_recvmsg_errno >= 1 && nd_recvmsg_errno <= 133);
		if (nd_recvmsg_errno == EAGAIN) {
			ASSUME(verif_eagain_budget > 0);
			verif_eagain_budget--;
		}
		errno = nd_recvmsg_errno;
		return -1;
	}
	ASSUME(nd_recvmsg_count <= msg->msg_iov[0].iov_len);
	if (verif_recvmsg_partial_budget >= 0 && nd_recvmsg_count > 0 && nd_recvmsg_count < msg->msg_iov[0].iov_len) {
		/* bounded-piece mode: only verif_recvmsg_partial_budget short deliveries */
		ASSUME(verif_recvmsg_partial_budget > 0);
		verif_recvmsg_partial_budget--;
	}
	if (nd_recvmsg_count > 0 && !verif_recvmsg_prefilled) {
#ifdef VERIF_CBMC
		__CPROVER_havoc_slice(msg->msg_iov[0].iov_base, nd_recvmsg_count);
#else
		memset(msg->msg_iov[0].iov_base, 0xAB, nd_recvmsg_count);
#endif
	}
#ifdef VERIF_RECVMSG_HOOK
	VERIF_RECVMSG_HOOK(msg, nd_recvmsg_count);
#endif
	return (ssize_t)nd_recvmsg_count;
}

static ssize_t verif_send(int fd, const void *buf, size_t len, int flags)
{
	VERIF_ND(uint8_t, nd_send_fails);
	VERIF_ND(int32_t, nd_send_errno);
	VERIF_ND(size_t, nd_send_count);
	verif_send_calls++;
	verif_send_last_fd = fd;
#ifdef VERIF_CBMC
	__CPROVER_assert(len == 0 || __CPROVER_r_ok(buf, len), "send: the buffer is readable for the whole length");
#endif
	if (nd_send_fails) {
		ASSUME(nd_send_errno >= 1 && nd_send_errno <= 133);
		if (nd_send_errno == EAGAIN) {
			ASSUME(verif_eagain_budget > 0);
			verif_eagain_budget--;
		}
		errno = nd_send_errno;
		return -1;
	}
	if (verif_send_never_partial) {
		nd_send_count = len;
	}
	ASSUME(nd_send_count <= len && (nd_send_count > 0 || len == 0));
	verif_send_bytes += nd_send_count;
	return (ssize_t)nd_send_count;
}

static int verif_poll(struct pollfd *fds, nfds_t nfds, int timeout)
{
	VERIF_ND(int32_t, nd_poll_rc);
	VERIF_ND(int32_t, nd_poll_errno);
	VERIF_ND(int16_t, nd_poll_rev0);
	VERIF_ND(int16_t, nd_poll_rev1);
	verif_poll_calls++;
	ASSUME(nd_poll_rc >= -1 && nd_poll_rc <= (int32_t)nfds);
	if (nd_poll_rc == -1) {
		ASSUME(nd_poll_errno >= 1 && nd_poll_errno <= 133);
		errno = nd_poll_errno;
		return -1;
	}
	if (nfds > 0) fds[0].revents = nd_poll_rev0;
	if (nfds > 1) fds[1].revents = nd_poll_rev1;
	return nd_poll_rc;
}

static int verif_close(int fd) { verif_close_calls++; verif_close_last_fd = fd; return 0; }
static int verif_shutdown(int fd, int how) { verif_shutdown_calls++; return 0; }
static int verif_setsockopt(int fd, int level, int optname, const void *optval, socklen_t optlen) { return 0; }
static int verif_stat(const char *path, struct stat *st)
{
	VERIF_ND(uint8_t, nd_stat_fails);
	if (nd_stat_fails) { errno = ENOENT; return -1; }
	return 0;
}
int verif_rmdir_calls, verif_unlink_calls, verif_munmap_calls;
static int verif_rmdir(const char *path) { verif_rmdir_calls++; return 0; }
static int verif_unlink(const char *path) { verif_unlink_calls++; return 0; }
static int verif_munmap(void *addr, size_t length) { verif_munmap_calls++; return 0; }
static int verif_nanosleep(const struct timespec *req, struct timespec *rem) { return 0; }

/* qb_sigpipe_ctl / qb_socket_nosigpipe: no effect on the properties (signal disposition) */
static void verif_qb_sigpipe_ctl(int ctl) { }
static void verif_qb_socket_nosigpipe(int32_t s) { }

/* recv/send are also member names of libqb's transport tables (c->funcs.send): no macro; the stubs are the
 * program's own definitions of recv()/send() (they take precedence over CBMC's models and over libc natively) */
ssize_t recv(int fd, void *buf, size_t len, int flags) { return verif_recv(fd, buf, len, flags); }
ssize_t send(int fd, const void *buf, size_t len, int flags) { return verif_send(fd, buf, len, flags); }
#define recvmsg verif_recvmsg
#define poll verif_poll
#define close verif_close
#define shutdown verif_shutdown
#define setsockopt verif_setsockopt
#define stat(p, b) verif_stat(p, b)
#define rmdir verif_rmdir
#define unlink verif_unlink
#define munmap verif_munmap
#define nanosleep verif_nanosleep
#define qb_sigpipe_ctl verif_qb_sigpipe_ctl
#define qb_socket_nosigpipe verif_qb_socket_nosigpipe

static void verif_os_ipc_reset(void)
{
	verif_dgram_mode = 0;
	verif_dgram_consumed = 0;
	verif_eagain_budget = 0;
	verif_recv_calls = verif_recvmsg_calls = verif_send_calls = verif_poll_calls = verif_close_calls = verif_shutdown_calls = 0;
	verif_recv_bytes = verif_send_bytes = 0;
	verif_send_last_fd = verif_close_last_fd = verif_recv_last_fd = -1;
	verif_recv_last_len = 0;
	verif_send_never_partial = 0;
	verif_recvmsg_prefilled = 0;
	verif_recvmsg_partial_budget = -1;
	verif_rmdir_calls = verif_unlink_calls = verif_munmap_calls = 0;
}
#endif
