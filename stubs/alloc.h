/* Allocation stubs (assumed contracts, DESIGN.md 5.3).
 * - calloc: may fail (NULL, errno = ENOMEM as glibc does); otherwise a fresh zeroed object.
 * - realloc: may fail (NULL, old object untouched); otherwise a fresh object of the new size,
 *   the old object is freed and the common prefix is preserved in WITNESS form: the pointer-sized
 *   word with index verif_realloc_wit (chosen freely by the harness) is copied when it lies in both.
 * Include after the system headers and before the spliced source. */
#ifndef VERIF_STUB_ALLOC_H
#define VERIF_STUB_ALLOC_H
#include "verif.h"
#include <stdlib.h>
#include <errno.h>

size_t verif_realloc_wit, verif_realloc_wit2;     /* witness word indexes for realloc's prefix preservation */
unsigned verif_alloc_calls;        /* ghost: number of successful allocations (harness must zero it: dfcc makes statics nondet) */
int verif_alloc_never_fails;  /* harness switch: 1 = allocations always succeed */

static void *verif_calloc(size_t n, size_t sz)
{
	VERIF_ND(uint8_t, nd_calloc_fails);
	void *p;
	if (nd_calloc_fails && !verif_alloc_never_fails) {
		errno = ENOMEM;
		return NULL;
	}
	p = calloc(n, sz);
#ifdef VERIF_CBMC
	__CPROVER_assume(p != NULL);
#endif
	verif_alloc_calls++;
	return p;
}

static void *verif_malloc(size_t n)
{
	VERIF_ND(uint8_t, nd_malloc_fails);
	void *p;
	if (nd_malloc_fails && !verif_alloc_never_fails) {
		errno = ENOMEM;
		return NULL;
	}
	p = malloc(n);
#ifdef VERIF_CBMC
	__CPROVER_assume(p != NULL);
#endif
	verif_alloc_calls++;
	return p;
}

static void *verif_realloc(void *old, size_t n)
{
#ifdef VERIF_CBMC
	VERIF_ND(uint8_t, nd_realloc_fails);
	void *p;
	if (nd_realloc_fails && !verif_alloc_never_fails) {
		errno = ENOMEM;
		return NULL;
	}
	p = malloc(n);
	__CPROVER_assume(p != NULL);
	if (old != NULL) {
		size_t osz = __CPROVER_OBJECT_SIZE(old);
		size_t w = verif_realloc_wit;
		if (w < n / sizeof(void *) && w < osz / sizeof(void *)) {
			((void **)p)[w] = ((void **)old)[w];
		}
		w = verif_realloc_wit2;
		if (w < n / sizeof(void *) && w < osz / sizeof(void *)) {
			((void **)p)[w] = ((void **)old)[w];
		}
		free(old);
	}
	verif_alloc_calls++;
	return p;
#else
	VERIF_ND(uint8_t, nd_realloc_fails);
	if (nd_realloc_fails && !verif_alloc_never_fails) {
		errno = ENOMEM;
		return NULL;
	}
	return realloc(old, n);
#endif
}

#define calloc verif_calloc
#define malloc verif_malloc
#define realloc verif_realloc
#endif
