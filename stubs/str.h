/* libc string / formatting helpers used by the log formatting code (lib/log_format.c, lib/log.c),
 * as assumed contracts (DESIGN.md 5.3).  Two flavours:
 *
 *  default (WITNESS form, loop-free -> usable inside loops that carry loop contracts, symbolic lengths):
 *    - strings the harness (or a stub) creates are DECLARED in a small registry (pointer, length, NUL at
 *      p[len] written by the declarer).  strlen(s) of a pointer into a declared string is exact
 *      (len - offset).  strlen of anything else ASSERTS that the last byte of the object is NUL (then a
 *      terminator exists inside the object) and returns some position of a NUL byte at or after s.
 *    - memcpy / memset ASSERT source readable / destination writable for the whole length, havoc the
 *      destination range and transfer the one byte at the absolute witness address verif_wit_ptr.
 *    - strchr / strchrnul / strrchr return a position inside the string holding the character (or the
 *      terminator / NULL); "first"/"last" is stated at the witness index verif_wit_idx only.
 *    - snprintf / vsnprintf: destination writable for `size` ASSERTED; writes at most `size` bytes, output
 *      NUL-terminated inside `size` when size > 0; result = non-deterministic would-be length or -1.
 *    - strlcpy (only with -DVERIF_STUB_STRLCPY; libqb's own implementation is proved against the same contract
 *      in unit logfmt.qb_strlcpy): min(strlen(src), maxlen-1) characters + terminator, returns strlen(src).
 *    - isdigit: C locale.  atoi: any int.  localtime_r: any calendar fields in their documented ranges.
 *      gethostname: any bytes, may fail, may leave the buffer unterminated.  getpid: any value.
 *      pthread_rwlock_*: sequential no-ops.
 *
 *  -DVERIF_STR_LOOPS (bounded units): strlen/strchr/strchrnul/strrchr/atoi are plain loops over the real bytes
 *    (exact results), memcpy/memset are byte loops; bound them with "unwind".
 *
 * Include after the system headers and before the spliced source.  Natively (replay) nothing is
 * replaced except the ghost bookkeeping: the real libc runs. */
#ifndef VERIF_STUB_STR_H
#define VERIF_STUB_STR_H
#include "verif.h"
#include <string.h>
#include <stdio.h>
#include <stdarg.h>
#include <stdlib.h>
#include <ctype.h>
#include <time.h>
#include <unistd.h>
#include <pthread.h>

/* ---- ghost registry of declared strings ------------------------------------------------------- */
#define VERIF_NSTR 8
struct verif_str { const char *p; size_t len; };
struct verif_str verif_strs[VERIF_NSTR];
char *verif_wit_ptr;          /* absolute witness address for memcpy/memset/snprintf transfers */
size_t verif_wit_idx;         /* witness index for "first/last occurrence" facts */
unsigned verif_str_calls;     /* ghost: number of stubbed string calls (vacuity aid) */
/* ghosts written by the stubs: name them in the assigns clause of a loop contract around stub calls */
#define VERIF_STR_GHOSTS verif_str_calls, verif_printf_calls, verif_printf_ret
/* slot 7 is used by the stubs themselves for the most recent snprintf/strlcpy-style result */
#define VERIF_S_TMP 7

static void verif_str_declare(int slot, const char *p, size_t len)
{
	verif_strs[slot].p = p;
	verif_strs[slot].len = len;
}
static void verif_str_reset(void)
{
	verif_strs[0].p = 0; verif_strs[1].p = 0; verif_strs[2].p = 0; verif_strs[3].p = 0;
	verif_strs[4].p = 0; verif_strs[5].p = 0; verif_strs[6].p = 0; verif_strs[7].p = 0;
	verif_wit_ptr = 0; verif_wit_idx = 0; verif_str_calls = 0;
}

#ifdef VERIF_CBMC
/* build a string object of exactly len + 1 bytes with arbitrary contents and the terminator at [len] */
static char *verif_mkstr(int slot, size_t len)
{
	size_t bytes = len + 1;
	char *p = malloc(bytes);
	__CPROVER_assume(p != NULL);
	p[len] = 0;
	if (slot >= 0) verif_str_declare(slot, p, len);
	return p;
}

#define VERIF_STR_TRY(k) \
	if (verif_strs[k].p != 0 && __CPROVER_same_object(s, verif_strs[k].p)) { \
		size_t o = __CPROVER_POINTER_OFFSET(s), b = __CPROVER_POINTER_OFFSET(verif_strs[k].p); \
		if (o >= b && o - b <= verif_strs[k].len) return verif_strs[k].len - (o - b); \
	}

#ifndef VERIF_STR_LOOPS
static size_t verif_strlen(const char *s)
{
	verif_str_calls++;
	__CPROVER_assert(__CPROVER_r_ok(s, 1), "strlen argument points to readable memory");
	VERIF_STR_TRY(0) VERIF_STR_TRY(1) VERIF_STR_TRY(2) VERIF_STR_TRY(3)
	VERIF_STR_TRY(4) VERIF_STR_TRY(5) VERIF_STR_TRY(6) VERIF_STR_TRY(7)
	{
		/* undeclared object (string literal, local array): terminated if its last byte is NUL */
		size_t sz = __CPROVER_OBJECT_SIZE(s), o = __CPROVER_POINTER_OFFSET(s);
		size_t n = nondet_u64();
		__CPROVER_assert(o < sz && (s - o)[sz - 1] == 0, "strlen argument is NUL-terminated inside its object");
		__CPROVER_assume(n < sz - o && s[n] == 0);
		return n;
	}
}

static void verif_wit_transfer_copy(char *d, const char *s, size_t n)
{
	if (verif_wit_ptr != 0 && __CPROVER_same_object(verif_wit_ptr, d)) {
		size_t w = __CPROVER_POINTER_OFFSET(verif_wit_ptr), b = __CPROVER_POINTER_OFFSET(d);
		if (w >= b && w - b < n) d[w - b] = s[w - b];
	}
}
static void *verif_memcpy(void *d, const void *s, size_t n)
{
	verif_str_calls++;
	if (n > 0) {
		__CPROVER_assert(__CPROVER_r_ok(s, n), "memcpy source readable for the whole length");
		__CPROVER_assert(__CPROVER_w_ok(d, n), "memcpy destination writable for the whole length");
		__CPROVER_havoc_slice(d, n);
		verif_wit_transfer_copy((char *)d, (const char *)s, n);
	}
	return d;
}
static void *verif_memset(void *d, int c, size_t n)
{
	verif_str_calls++;
	if (n > 0) {
		__CPROVER_assert(__CPROVER_w_ok(d, n), "memset destination writable for the whole length");
		__CPROVER_havoc_slice(d, n);
		if (verif_wit_ptr != 0 && __CPROVER_same_object(verif_wit_ptr, d)) {
			size_t w = __CPROVER_POINTER_OFFSET(verif_wit_ptr), b = __CPROVER_POINTER_OFFSET(d);
			if (w >= b && w - b < n) ((char *)d)[w - b] = (char)c;
		}
	}
	return d;
}
static char *verif_strchrnul(const char *s, int c)
{
	size_t n = verif_strlen(s);
	size_t k = nondet_u64();
	__CPROVER_assume(k <= n && (k == n || s[k] == (char)c));
	__CPROVER_assume(verif_wit_idx >= k || s[verif_wit_idx] != (char)c);
	return (char *)s + k;
}
static char *verif_strchr(const char *s, int c)
{
	char *p = verif_strchrnul(s, c);
	return (*p == (char)c) ? p : 0;
}
static char *verif_strrchr(const char *s, int c)
{
	size_t n = verif_strlen(s);
	size_t k = nondet_u64();
	if (nondet_u64() & 1) {
		__CPROVER_assume(verif_wit_idx > n || s[verif_wit_idx] != (char)c || c == 0);
		return c == 0 ? (char *)s + n : 0;
	}
	__CPROVER_assume(k <= n && s[k] == (char)c);
	__CPROVER_assume(verif_wit_idx <= k || verif_wit_idx > n || s[verif_wit_idx] != (char)c);
	return (char *)s + k;
}
#ifndef VERIF_EXACT_ATOI
static int verif_atoi(const char *s)
{
	int v = (int)nondet_u64();
	__CPROVER_assert(__CPROVER_r_ok(s, 1), "atoi argument readable");
	return v;
}
#else
/* exact value of a short digit run (units whose format strings are concrete: the loop folds away) */
static int verif_atoi(const char *s)
{
	unsigned v = 0;
	size_t k = 0;
	while (s[k] >= '0' && s[k] <= '9') { v = v * 10u + (unsigned)(s[k] - '0'); k++; }
	return (int)v;
}
#endif
#else  /* VERIF_STR_LOOPS: exact byte loops */
static size_t verif_strlen(const char *s)
{
	size_t n = 0;
	/* strings the harness declared (terminator written by the declarer, no NUL before it): the declared length */
	VERIF_STR_TRY(0) VERIF_STR_TRY(1) VERIF_STR_TRY(2) VERIF_STR_TRY(3)
	while (s[n] != 0) n++;
	return n;
}
static void *verif_memcpy(void *d, const void *s, size_t n)
{
	for (size_t i = 0; i < n; i++) ((char *)d)[i] = ((const char *)s)[i];
	return d;
}
static void *verif_memset(void *d, int c, size_t n)
{
	for (size_t i = 0; i < n; i++) ((char *)d)[i] = (char)c;
	return d;
}
static char *verif_strchrnul(const char *s, int c)
{
	size_t k = 0;
	while (s[k] != 0 && s[k] != (char)c) k++;
	return (char *)s + k;
}
static char *verif_strchr(const char *s, int c)
{
	char *p = verif_strchrnul(s, c);
	return (*p == (char)c) ? p : 0;
}
static char *verif_strrchr(const char *s, int c)
{
	char *r = 0;
	size_t k = 0;
	for (;; k++) {
		if (s[k] == (char)c) r = (char *)s + k;
		if (s[k] == 0) break;
	}
	return r;
}
static int verif_atoi(const char *s)
{
	/* digits only (the callers test isdigit first); wraps like a 32-bit accumulator */
	unsigned v = 0;
	size_t k = 0;
	while (s[k] >= '0' && s[k] <= '9') { v = v * 10u + (unsigned)(s[k] - '0'); k++; }
	return (int)v;
}
#endif /* VERIF_STR_LOOPS */

#ifdef VERIF_STUB_STRLCPY
/* strlcpy (libqb ships its own in lib/strlcpy.c; unit logfmt.qb_strlcpy proves that body against exactly this
 * contract): copies min(strlen(src), maxlen - 1) characters and a terminator when maxlen > 0, returns strlen(src) */
static size_t verif_strlcpy(char *dest, const char *src, size_t maxlen)
{
	size_t n = verif_strlen(src);
	if (maxlen > 0) {
		size_t k = n < maxlen - 1 ? n : maxlen - 1;
		__CPROVER_assert(__CPROVER_w_ok(dest, k + 1), "strlcpy destination writable for the copied length");
		__CPROVER_havoc_slice(dest, k + 1);
#ifndef VERIF_STR_LOOPS
		verif_wit_transfer_copy(dest, src, k);
#endif
		dest[k] = 0;
		verif_str_declare(VERIF_S_TMP, dest, k);
	}
	return n;
}
#define strlcpy verif_strlcpy
#endif

static int verif_isdigit(int c) { return c >= '0' && c <= '9'; }

/* snprintf family: the text is not modelled, only the memory contract */
int verif_printf_ret;       /* ghost: last result handed out */
unsigned verif_printf_calls;
static int verif_vsnprintf_core(char *buf, size_t size)
{
	int ret = (int)nondet_u64();
	size_t k = nondet_u64();
	verif_printf_calls++;
	__CPROVER_assume(ret >= -1);
	if (size > 0) {
		__CPROVER_assert(__CPROVER_w_ok(buf, size), "snprintf destination writable for the given size");
		if (ret >= 0 && (size_t)ret < size) {
			k = (size_t)ret;
		} else {
			__CPROVER_assume(k <= size - 1 && (ret < 0 || k == size - 1));
		}
		__CPROVER_havoc_slice(buf, k + 1);
		buf[k] = 0;
		verif_str_declare(VERIF_S_TMP, buf, k);
	}
	verif_printf_ret = ret;
	return ret;
}
static int verif_snprintf(char *buf, size_t size, const char *fmt, ...)
{
	__CPROVER_assert(__CPROVER_r_ok(fmt, 1), "snprintf format readable");
	return verif_vsnprintf_core(buf, size);
}
static int verif_vsnprintf(char *buf, size_t size, const char *fmt, va_list ap)
{
	__CPROVER_assert(__CPROVER_r_ok(fmt, 1), "vsnprintf format readable");
	return verif_vsnprintf_core(buf, size);
}

static struct tm *verif_localtime_r(const time_t *t, struct tm *res)
{
	int mon = (int)nondet_u64(), mday = (int)nondet_u64(), hour = (int)nondet_u64(), min = (int)nondet_u64(), sec = (int)nondet_u64();
	__CPROVER_assume(mon >= 0 && mon <= 11 && mday >= 1 && mday <= 31 && hour >= 0 && hour <= 23 && min >= 0 && min <= 59 && sec >= 0 && sec <= 60);
	(void)*t;
	res->tm_mon = mon; res->tm_mday = mday; res->tm_hour = hour; res->tm_min = min; res->tm_sec = sec;
	res->tm_year = (int)nondet_u64(); res->tm_wday = 0; res->tm_yday = 0; res->tm_isdst = 0;
	return res;
}
static int verif_gethostname(char *name, size_t len)
{
	if (len > 0) {
		__CPROVER_assert(__CPROVER_w_ok(name, len), "gethostname buffer writable for the given length");
		__CPROVER_havoc_slice(name, len);
	}
	if (verif_strs[VERIF_S_TMP].p != 0 && __CPROVER_same_object(verif_strs[VERIF_S_TMP].p, name)) {
		verif_strs[VERIF_S_TMP].p = 0;   /* contents replaced: the declared terminator is gone */
	}
	return (nondet_u64() & 1) ? 0 : -1;
}
static pid_t verif_getpid(void) { return (pid_t)nondet_u64(); }
static int verif_rwlock_nop(pthread_rwlock_t *l) { (void)l; return 0; }
static int verif_rwlock_init(pthread_rwlock_t *l, const pthread_rwlockattr_t *a) { (void)l; (void)a; return 0; }

#define strlen verif_strlen
#define memcpy verif_memcpy
#define memset verif_memset
#define strchrnul verif_strchrnul
#define strchr verif_strchr
#define strrchr verif_strrchr
#define atoi verif_atoi
#undef isdigit
#define isdigit verif_isdigit
#ifndef VERIF_KEEP_PRINTF
#define snprintf verif_snprintf
#define vsnprintf verif_vsnprintf
#endif
#define localtime_r verif_localtime_r
#define gethostname verif_gethostname
#define getpid verif_getpid
#define pthread_rwlock_rdlock verif_rwlock_nop
#define pthread_rwlock_wrlock verif_rwlock_nop
#define pthread_rwlock_unlock verif_rwlock_nop
#define pthread_rwlock_destroy verif_rwlock_nop
#define pthread_rwlock_init verif_rwlock_init

#else /* native replay: real libc; strings get real contents */
static char *verif_mkstr(int slot, size_t len)
{
	char *p = malloc(len + 1);
	memset(p, 'x', len);
	p[len] = 0;
	if (slot >= 0) verif_str_declare(slot, p, len);
	return p;
}
#endif /* VERIF_CBMC */

#endif
