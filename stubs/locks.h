/* qb_thread_lock_* as sequential no-ops (assumption: lock creation succeeds, single thread). */
#ifndef VERIF_STUB_LOCKS_H
#define VERIF_STUB_LOCKS_H
#include <qb/qbutil.h>
int verif_lock_depth;      /* ghost: lock() minus unlock() */
int verif_lock_token;
static qb_thread_lock_t *verif_qb_thread_lock_create(qb_thread_lock_type_t type)
{
	return (qb_thread_lock_t *)&verif_lock_token;
}
static int32_t verif_qb_thread_lock(qb_thread_lock_t *tl) { verif_lock_depth++; return 0; }
static int32_t verif_qb_thread_unlock(qb_thread_lock_t *tl) { verif_lock_depth--; return 0; }
static int32_t verif_qb_thread_trylock(qb_thread_lock_t *tl) { verif_lock_depth++; return 0; }
static int32_t verif_qb_thread_lock_destroy(qb_thread_lock_t *tl) { return 0; }
#define qb_thread_lock_create verif_qb_thread_lock_create
#define qb_thread_lock verif_qb_thread_lock
#define qb_thread_unlock verif_qb_thread_unlock
#define qb_thread_trylock verif_qb_thread_trylock
#define qb_thread_lock_destroy verif_qb_thread_lock_destroy
#endif
